package findings

import (
	"testing"

	"github.com/aws/aws-sdk-go-v2/aws"
	"github.com/aws/aws-sdk-go-v2/service/dynamodb"
	ddbtypes "github.com/aws/aws-sdk-go-v2/service/dynamodb/types"
	v2 "github.com/truora/minidyn/aws-v2/client"
)

// C13.R4: an update expression could change a key attribute, leaving an item whose key differs from its address.
func TestC13UpdateCannotChangeKey(t *testing.T) {
	c := newV2(t, "t", "id", "")
	put(t, c, "t", item{"id": S("a"), "v": S("1")})
	_, err := c.UpdateItem(ctx, &dynamodb.UpdateItemInput{TableName: aws.String("t"), Key: item{"id": S("a")},
		UpdateExpression: aws.String("SET id = :g"), ExpressionAttributeValues: item{":g": S("zz")}})
	out, _ := c.GetItem(ctx, &dynamodb.GetItemInput{TableName: aws.String("t"), Key: item{"id": S("a")}})
	if err == nil || str(out.Item, "id") != "a" {
		t.Fatalf("update changed the key attribute: err=%v, item retrievable under a has id=%q", err, str(out.Item, "id"))
	}
}

// C13.R1 (known finding): hash and range renderings are joined with '.', so distinct keys collide.
func TestC13KeyEncodingCollides(t *testing.T) {
	c := newV2(t, "t", "h", "r")
	put(t, c, "t", item{"h": S("a.b"), "r": S("c"), "v": S("first")})
	put(t, c, "t", item{"h": S("a"), "r": S("b.c"), "v": S("second")})
	if got := scanIndex(t, c, "t", ""); len(got) != 2 {
		t.Fatalf("two distinct keys collapsed into %d item(s)", len(got))
	}
}

// C13.R7: the declared type of the primary key does not change when an index is added on the same attribute
// (the AddIndex helper always declares its key attributes as S).
func TestC13AddIndexKeepsThePrimaryKeyType(t *testing.T) {
	c := v2.NewClient()
	_, err := c.CreateTable(ctx, &dynamodb.CreateTableInput{
		TableName:            aws.String("t"),
		BillingMode:          ddbtypes.BillingModePayPerRequest,
		AttributeDefinitions: []ddbtypes.AttributeDefinition{{AttributeName: aws.String("id"), AttributeType: ddbtypes.ScalarAttributeTypeN}},
		KeySchema:            []ddbtypes.KeySchemaElement{{AttributeName: aws.String("id"), KeyType: ddbtypes.KeyTypeHash}},
	})
	if err != nil {
		t.Fatal(err)
	}
	put(t, c, "t", item{"id": N("1"), "g": S("x")})
	if err := v2.AddIndex(ctx, c, "t", "by-id", "id", ""); err != nil {
		t.Fatal(err)
	}
	if _, err := c.PutItem(ctx, &dynamodb.PutItemInput{TableName: aws.String("t"), Item: item{"id": N("2"), "g": S("y")}}); err != nil {
		t.Fatalf("a well-typed key is rejected after AddIndex: %v", err)
	}
	out, err := c.GetItem(ctx, &dynamodb.GetItemInput{TableName: aws.String("t"), Key: item{"id": N("1")}})
	if err != nil || len(out.Item) == 0 {
		t.Fatalf("item 1 is no longer retrievable under its key: %v %v", out, err)
	}
}
