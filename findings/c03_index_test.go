package findings

import (
	"testing"

	"github.com/aws/aws-sdk-go-v2/aws"
	"github.com/aws/aws-sdk-go-v2/service/dynamodb"
	v2 "github.com/truora/minidyn/aws-v2/client"
)

// C03.R2 index.putData: overwriting an item with a different index key leaves the old key in sortedKeys.
func TestC03OverwriteChangesIndexKey(t *testing.T) {
	c := newV2(t, "t", "id", "")
	if err := v2.AddIndex(ctx, c, "t", "byg", "g", ""); err != nil {
		t.Fatal(err)
	}
	put(t, c, "t", item{"id": S("a"), "g": S("g1")})
	put(t, c, "t", item{"id": S("b"), "g": S("g5")})
	put(t, c, "t", item{"id": S("a"), "g": S("g9")}) // overwrite: g1 -> g9
	got := scanIndex(t, c, "t", "byg")
	if len(got) != 2 {
		t.Fatalf("index scan returned %d items, want 2 (a and b): %v", len(got), got)
	}
}

// C03.R2 index.updateData: an update that gives an item its index key for the first time overwrites another item's entry.
func TestC03UpdateEntersIndexLate(t *testing.T) {
	c := newV2(t, "t", "id", "")
	if err := v2.AddIndex(ctx, c, "t", "byg", "g", ""); err != nil {
		t.Fatal(err)
	}
	put(t, c, "t", item{"id": S("a"), "g": S("g1")})
	put(t, c, "t", item{"id": S("b")})
	_, err := c.UpdateItem(ctx, &dynamodb.UpdateItemInput{TableName: aws.String("t"), Key: item{"id": S("b")},
		UpdateExpression: aws.String("SET g = :g"), ExpressionAttributeValues: item{":g": S("g2")}})
	if err != nil {
		t.Fatal(err)
	}
	got := scanIndex(t, c, "t", "byg")
	if len(got) != 2 {
		t.Fatalf("index scan returned %d items, want 2: %v", len(got), got)
	}
}

// C03.R2: an overwrite that drops the index key must remove the item from the (sparse) index.
func TestC03OverwriteDropsIndexKey(t *testing.T) {
	c := newV2(t, "t", "id", "")
	if err := v2.AddIndex(ctx, c, "t", "byg", "g", ""); err != nil {
		t.Fatal(err)
	}
	put(t, c, "t", item{"id": S("a"), "g": S("g1")})
	put(t, c, "t", item{"id": S("a")})
	if got := scanIndex(t, c, "t", "byg"); len(got) != 0 {
		t.Fatalf("index still lists %d item(s) after the item lost its index key", len(got))
	}
}
